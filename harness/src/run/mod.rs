//! Runners built on the repository's public API, following the code paths the
//! CLI takes (ExecContext -> RuntimeData -> LocalBufferDriver::init) for both
//! back ends.

use crate::util::{Panic, catch};
use mimium_audiodriver::backends::local_buffer::LocalBufferDriver;
use mimium_audiodriver::driver::{Driver, RuntimeData, VmDspRuntime};
use mimium_lang::compiler::IoChannelInfo;
use mimium_lang::mir::StateType;
use mimium_lang::plugin::Plugin;
use mimium_lang::runtime::wasm::engine::{WasmDspRuntime, WasmEngine};
use mimium_lang::runtime::{ProgramPayload, Time};
use mimium_lang::utils::error::ReportableError;
use mimium_lang::{Config, ExecContext};
use state_tree::tree::StateTreeSkeleton;
use std::path::PathBuf;
use std::sync::atomic::Ordering;

pub type Skeleton = StateTreeSkeleton<StateType>;

#[derive(Clone, Copy, Debug, PartialEq, Eq, Hash)]
pub enum Backend {
    Vm,
    Wasm,
}
impl Backend {
    /// both back ends; only the VM inside the Miri interpreter (wasmtime is JIT + C FFI, which Miri cannot
    /// enter) or when MMV_VM_ONLY is set
    pub fn all() -> &'static [Backend] {
        if cfg!(miri) || std::env::var_os("MMV_VM_ONLY").is_some() { &[Backend::Vm] } else { &[Backend::Vm, Backend::Wasm] }
    }
    pub fn name(self) -> &'static str {
        match self {
            Backend::Vm => "vm",
            Backend::Wasm => "wasm",
        }
    }
}

#[derive(Clone, Debug)]
pub struct Diag {
    pub message: String,
    pub labels: Vec<(usize, usize, String, String)>, // start,end,path,label
}

pub fn diags(errs: &[Box<dyn ReportableError>]) -> Vec<Diag> {
    errs.iter()
        .map(|e| Diag {
            message: e.get_message(),
            labels: e
                .get_labels()
                .into_iter()
                .map(|(l, m)| (l.span.start, l.span.end, l.path.to_string_lossy().to_string(), m))
                .collect(),
        })
        .collect()
}

#[derive(Debug)]
pub enum BuildError {
    /// The compiler answered with diagnostics.
    Rejected(Vec<Diag>),
    /// The WASM code generator / engine refused (Err(String)).
    BackendRefused(String),
    /// No `dsp` function / no io channel info.
    NoDsp,
    /// Panic in some phase.
    Panicked(&'static str, Panic),
}

impl BuildError {
    pub fn short(&self) -> String {
        match self {
            BuildError::Rejected(d) => {
                format!("rejected: {}", d.first().map(|d| d.message.clone()).unwrap_or_default())
            }
            BuildError::BackendRefused(s) => format!("backend refused: {s}"),
            BuildError::NoDsp => "no dsp".into(),
            BuildError::Panicked(ph, p) => format!("panic in {ph}: {} @ {}", p.msg, p.loc),
        }
    }
    pub fn is_reject(&self) -> bool {
        matches!(self, BuildError::Rejected(_))
    }
}

pub struct Session {
    pub backend: Backend,
    pub driver: LocalBufferDriver,
    pub ctx: ExecContext,
    pub io: IoChannelInfo,
    pub skeleton: Option<Skeleton>,
    pub scheduler: bool,
    pub path: Option<PathBuf>,
    /// for wasm hot swap
    pub ext_fns: Vec<mimium_lang::plugin::ExtFunTypeInfo>,
    pub plugin_fns: Option<mimium_lang::runtime::wasm::WasmPluginFnMap>,
    pub main_rc: i64,
}

#[derive(Debug, Clone)]
pub struct StepOut {
    pub rc: i64,
    pub out: Vec<f64>,
}

fn new_ctx(
    backend: Backend,
    driver: &LocalBufferDriver,
    path: Option<PathBuf>,
    scheduler: bool,
) -> ExecContext {
    let plugins: Vec<Box<dyn Plugin>> = match backend {
        Backend::Vm => vec![Box::new(driver.get_as_plugin())],
        Backend::Wasm => vec![],
    };
    let mut ctx = ExecContext::new(plugins.into_iter(), path, Config::default());
    if scheduler {
        ctx.add_system_plugin(mimium_scheduler::get_default_scheduler_plugin());
    }
    ctx
}

impl Session {
    pub fn build(
        backend: Backend,
        src: &str,
        scheduler: bool,
        path: Option<PathBuf>,
    ) -> Result<Session, BuildError> {
        match backend {
            Backend::Vm => Self::build_vm(src, scheduler, path),
            Backend::Wasm => Self::build_wasm(src, scheduler, path),
        }
    }

    fn build_vm(src: &str, scheduler: bool, path: Option<PathBuf>) -> Result<Session, BuildError> {
        let mut driver = LocalBufferDriver::new(0);
        let mut ctx = new_ctx(Backend::Vm, &driver, path.clone(), scheduler);
        let r = catch(|| ctx.prepare_machine(src)).map_err(|p| BuildError::Panicked("compile", p))?;
        if let Err(errs) = r {
            return Err(BuildError::Rejected(diags(&errs)));
        }
        if ctx.get_vm().is_none_or(|vm| vm.prog.get_fun_index("dsp").is_none() || vm.prog.iochannels.is_none()) {
            return Err(BuildError::NoDsp);
        }
        let skeleton = ctx.get_vm().and_then(|vm| vm.prog.get_dsp_state_skeleton().cloned());
        let main_rc = catch(|| ctx.run_main()).map_err(|p| BuildError::Panicked("main", p))?;
        let rd = catch(|| RuntimeData::try_from(&mut ctx))
            .map_err(|p| BuildError::Panicked("runtime-data", p))?
            .map_err(|_| BuildError::NoDsp)?;
        let io = catch(|| driver.init(rd, None)).map_err(|p| BuildError::Panicked("init", p))?;
        let Some(io) = io else { return Err(BuildError::NoDsp) };
        Ok(Session {
            backend: Backend::Vm,
            driver,
            ctx,
            io,
            skeleton,
            scheduler,
            path,
            ext_fns: vec![],
            plugin_fns: None,
            main_rc,
        })
    }

    fn build_wasm(src: &str, scheduler: bool, path: Option<PathBuf>) -> Result<Session, BuildError> {
        let mut driver = LocalBufferDriver::new(0);
        let mut ctx = new_ctx(Backend::Wasm, &driver, path.clone(), scheduler);
        ctx.prepare_compiler();
        let out = catch(|| ctx.get_compiler().unwrap().emit_wasm(src))
            .map_err(|p| BuildError::Panicked("compile", p))?;
        let out = match out {
            Ok(o) => o,
            Err(errs) => {
                // emit_wasm folds code generator refusals into SimpleError with default location
                let ds = diags(&errs);
                return Err(BuildError::Rejected(ds));
            }
        };
        if out.io_channels.is_none() {
            return Err(BuildError::NoDsp);
        }
        let ext_fns = out.ext_fns.clone();
        let plugin_fns = ctx.freeze_wasm_plugin_fns();
        let plugin_fns_keep = plugin_fns.clone();
        let workers = ctx.generate_wasm_audioworkers();
        let engine = catch(|| {
            let mut e = WasmEngine::new(&ext_fns, plugin_fns)?;
            e.load_module(&out.bytes)?;
            Ok::<_, String>(e)
        })
        .map_err(|p| BuildError::Panicked("load", p))?
        .map_err(BuildError::BackendRefused)?;
        let mut rt = WasmDspRuntime::new(engine, out.io_channels, out.dsp_state_skeleton.clone());
        rt.set_wasm_audioworkers(workers);
        let mut main_rc = 0;
        catch(|| {
            ctx.run_wasm_on_init(rt.engine_mut());
            if rt.run_main().is_err() {
                main_rc = -1;
            }
            ctx.run_wasm_after_main(rt.engine_mut());
        })
        .map_err(|p| BuildError::Panicked("main", p))?;
        let rd = RuntimeData::new_from_runtime(Box::new(rt));
        let io = catch(|| driver.init(rd, None)).map_err(|p| BuildError::Panicked("init", p))?;
        let Some(io) = io else { return Err(BuildError::NoDsp) };
        Ok(Session {
            backend: Backend::Wasm,
            driver,
            ctx,
            io,
            skeleton: out.dsp_state_skeleton,
            scheduler,
            path,
            ext_fns,
            plugin_fns: plugin_fns_keep,
            main_rc,
        })
    }

    pub fn now(&self) -> u64 {
        self.driver.count.load(Ordering::Relaxed)
    }

    /// One sample tick, as LocalBufferDriver::play does it (plus input feeding).
    pub fn step(&mut self, input: &[f64]) -> Result<StepOut, Panic> {
        let now = self.driver.count.load(Ordering::Relaxed);
        let och = self.io.output as usize;
        let count = self.driver.count.clone();
        let vmdata = self.driver.vmdata.as_mut().expect("not initialised");
        mimium_lang::verif::reset_steps();
        let r = catch(|| {
            if !input.is_empty() {
                vmdata.set_input(input);
            }
            let rc = vmdata.run_dsp(Time(now));
            let out = vmdata.get_output(och).to_vec();
            StepOut { rc, out }
        });
        count.store(now + 1, Ordering::Relaxed);
        r
    }

    /// Flat dsp state words (VM: storage as is; WASM: lazily grown storage).
    pub fn state_words(&mut self) -> Vec<u64> {
        let vmdata = self.driver.vmdata.as_mut().expect("not initialised");
        match self.backend {
            Backend::Vm => vmdata
                .downcast_runtime_ref::<VmDspRuntime>()
                .map(|r| r.vm.verif_global_state().0.to_vec())
                .unwrap_or_default(),
            Backend::Wasm => vmdata
                .downcast_runtime_mut::<WasmDspRuntime>()
                .and_then(|r| r.engine_mut().get_global_state_data().map(|d| d.to_vec()))
                .unwrap_or_default(),
        }
    }
    pub fn state_cursor(&mut self) -> usize {
        let vmdata = self.driver.vmdata.as_mut().expect("not initialised");
        match self.backend {
            Backend::Vm => vmdata
                .downcast_runtime_ref::<VmDspRuntime>()
                .map(|r| r.vm.verif_global_state().1)
                .unwrap_or(0),
            Backend::Wasm => vmdata
                .downcast_runtime_mut::<WasmDspRuntime>()
                .and_then(|r| r.engine_mut().current_module_mut())
                .and_then(|m| m.get_runtime_state_mut())
                .map(|s| s.verif_global_pos())
                .unwrap_or(0),
        }
    }
    /// (closures, heap objects, arrays) live in the runtime.
    pub fn live_counts(&mut self) -> (usize, usize, usize) {
        let vmdata = self.driver.vmdata.as_mut().expect("not initialised");
        match self.backend {
            Backend::Vm => vmdata
                .downcast_runtime_ref::<VmDspRuntime>()
                .map(|r| (r.vm.closures.len(), r.vm.heap.len(), r.vm.verif_array_count()))
                .unwrap_or_default(),
            Backend::Wasm => vmdata
                .downcast_runtime_mut::<WasmDspRuntime>()
                .and_then(|r| r.engine_mut().current_module_mut())
                .and_then(|m| m.get_runtime_state_mut())
                .map(|s| {
                    let (h, c, a) = s.verif_counts();
                    (c, h, a)
                })
                .unwrap_or_default(),
        }
    }
    pub fn vm(&self) -> Option<&mimium_lang::runtime::vm::Machine> {
        self.driver
            .vmdata
            .as_ref()
            .and_then(|d| d.downcast_runtime_ref::<VmDspRuntime>())
            .map(|r| &r.vm)
    }

    /// Compile `src` with this session's compiler and hot-swap it in, the way
    /// the CLI does on a file change. Err(diagnostics) = compile failed (the
    /// running program is left alone, as in the CLI).
    pub fn hot_swap(&mut self, src: &str) -> Result<bool, BuildError> {
        match self.backend {
            Backend::Vm => {
                let comp = self.ctx.get_compiler().expect("compiler");
                let prog = catch(|| comp.emit_bytecode(src))
                    .map_err(|p| BuildError::Panicked("recompile", p))?
                    .map_err(|e| BuildError::Rejected(diags(&e)))?;
                let skel = prog.get_dsp_state_skeleton().cloned();
                let io = prog.iochannels;
                let vmdata = self.driver.vmdata.as_mut().expect("not initialised");
                let ok = catch(|| vmdata.resume_with_program(ProgramPayload::VmProgram(prog)))
                    .map_err(|p| BuildError::Panicked("swap", p))?;
                if ok {
                    self.skeleton = skel;
                    if let Some(io) = io {
                        self.io = io;
                    }
                }
                Ok(ok)
            }
            Backend::Wasm => {
                let comp = self.ctx.get_compiler().expect("compiler");
                let out = catch(|| comp.emit_wasm(src))
                    .map_err(|p| BuildError::Panicked("recompile", p))?
                    .map_err(|e| BuildError::Rejected(diags(&e)))?;
                let prev = self.skeleton.clone();
                let new_skel = out.dsp_state_skeleton.clone();
                let io = out.io_channels;
                let ext = out.ext_fns.clone();
                let pf = self.plugin_fns.clone();
                let payload = catch(|| {
                    mimium_cli::verif_prepare_wasm_swap(out.bytes, prev, new_skel.clone(), &ext, pf)
                })
                .map_err(|p| BuildError::Panicked("prepare-swap", p))?
                .map_err(BuildError::BackendRefused)?;
                let vmdata = self.driver.vmdata.as_mut().expect("not initialised");
                let ok = catch(|| vmdata.resume_with_program(payload))
                    .map_err(|p| BuildError::Panicked("swap", p))?;
                if ok {
                    self.skeleton = new_skel;
                    let _ = io;
                }
                Ok(ok)
            }
        }
    }
}

/// Result of a whole run.
#[derive(Debug, Clone)]
pub struct RunOut {
    pub channels: usize,
    pub in_channels: usize,
    /// flattened [sample][channel]
    pub out: Vec<f64>,
    /// per sample return code
    pub rcs: Vec<i64>,
    /// flat state words after each sample (only if requested)
    pub states: Vec<Vec<u64>>,
    pub main_rc: i64,
    pub total_state_size: Option<usize>,
}

#[derive(Debug)]
pub enum RunError {
    Build(BuildError),
    /// panic during dsp at sample index
    DspPanic(usize, Panic),
}
impl RunError {
    pub fn short(&self) -> String {
        match self {
            RunError::Build(b) => b.short(),
            RunError::DspPanic(i, p) => format!("panic in dsp@{i}: {} @ {}", p.msg, p.loc),
        }
    }
}

/// `inputs`: per sample input vector generator.
pub fn run_program(
    backend: Backend,
    src: &str,
    scheduler: bool,
    n: usize,
    input: &dyn Fn(usize, usize) -> f64,
    want_states: bool,
    path: Option<PathBuf>,
) -> Result<RunOut, RunError> {
    let mut s = Session::build(backend, src, scheduler, path).map_err(RunError::Build)?;
    let ich = s.io.input as usize;
    let och = s.io.output as usize;
    let mut out = Vec::with_capacity(n * och);
    let mut rcs = Vec::with_capacity(n);
    let mut states = vec![];
    let mut inbuf = vec![0.0; ich];
    for t in 0..n {
        for c in 0..ich {
            inbuf[c] = input(t, c);
        }
        let st = s.step(&inbuf).map_err(|p| RunError::DspPanic(t, p))?;
        out.extend_from_slice(&st.out);
        // keep the flattened layout rectangular even if a backend returns fewer words
        for _ in st.out.len()..och {
            out.push(f64::from_bits(0x7ff8_dead_beef_0000));
        }
        rcs.push(st.rc);
        if want_states {
            states.push(s.state_words());
        }
    }
    Ok(RunOut {
        channels: och,
        in_channels: ich,
        out,
        rcs,
        states,
        main_rc: s.main_rc,
        total_state_size: s.skeleton.as_ref().map(|k| k.total_size() as usize),
    })
}
