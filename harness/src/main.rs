#![allow(dead_code)]
//! `mmv` — worker binary of the runtime-monitoring harness.
//! Usage: mmv <property|tool> [--tier quick|thorough] [--seed N] [--shard i/n] [--out file] ...

mod gens;
mod props;
mod refsem;
mod run;
mod util;

use util::{Args, Out};

fn main() {
    let argv: Vec<String> = std::env::args().collect();
    let args = Args::parse(&argv);
    util::set_quarantine(&args.quarantine);
    util::set_repo_path(&args.repo);
    util::install_panic_hook();
    if args.prop != "probe" {
        util::silence_stderr();
    }
    // Hooks on the worker's main thread: bounds assertions before every unchecked VM access
    // (so that a layout defect is a tagged panic attributed to the case, not heap corruption
    // of the worker) and a generous logical instruction budget per dsp call.
    util::hooks_default();
    let mut out = Out::new(args.out.as_deref());
    util::set_phase_file(args.out.as_deref());
    match args.prop.as_str() {
        "probe" => props::probe::main(&args),
        p => {
            if !props::dispatch(p, &args, &mut out) {
                eprintln!("unknown property/tool {p}");
                std::process::exit(3);
            }
            out.finish();
        }
    }
}
